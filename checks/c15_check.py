"""C15: ConcurrentTransientTopic.  Pipeline (DESIGN.md 2.4, same as bq_check.py):
   1. TLC model-checks the L2 spec Topic.tla (SC families + weak-memory families) with the committed order table
   2. the real topic is run under vsched (random / PCT / preemption-bounded schedules; fixed, generated and
      block-boundary-straddling programs; publish / close / clear cycles)
   3. every recorded execution is validated against Topic_Trace (L2 conformance, collects site->order),
      Topic_Mon (L1 clauses of the property statement) and HBMon (generic happens-before over payload accesses)
   4. the order table read from the running code is compared with the committed one; if it differs the
      model is re-checked with the code's orders (conformant L2 + TLC counterexample = V2)
"""
import json
import os
import random
import re
import sys
from concurrent.futures import ThreadPoolExecutor

sys.path.insert(0, os.path.dirname(os.path.abspath(__file__)))
import bq_common as bq
import topic_common as tc
import vlib
from vlib import log

SPEC = vlib.SPEC
DRIVER = "topic_driver"

# programs exercised on every run: (pre, rsv, live, prog)   -- thread 0 (main) first
FIXED = [
    (126, 256, 1, "s1.s2.s3.j1.cl.j2.j3_p1.p2_c3.c1_c2.c2"),           # batch 2 / consume 3 straddle the block boundary 128
    (127, 256, 1, "s1.s2.s3.j1.j2.cl.j3_pv_p2_c2.c2"),                 # two concurrent publishers (single + batch)
    (126, 256, 1, "s1.s2.s3.j1.j2.j3_qv.q2.cl_c1.c3_c3.c2"),           # close right behind the last publish (same thread)
    (127, 256, 1, "s1.s2.j1.j2.clr.s3.s4.j3.j4_q1.cl_c2_p2.cl_sub.c3"),  # publish / close / clear / publish / close
    (0, 256, 1, "q1.s1.cl.j1.clr.s2.pv.cl.j2.clr_c1.c1_sub.c2"),       # main thread publishes; two clears
    (0, 256, 0, "s1.s2.j1.j2_p1_c2"),                                  # no close: the consumer has to stay blocked
    (125, 256, 1, "s1.s2.s3.s4.j1.j2.cl.j3.j4_p2_p3_c3.c3_c1.c1.c1.c1.c1.c1"),
    (127, 256, 1, "s1.s2.s3.j1.cl.j2.j3_p3_c1.c1.c2_c2.c2"),
    (0, 0, 1, "s1.s2.s3.j1.j2.cl.j3_p2_pv_c2.c2"),                     # the vector grows during the run (L1 / HB only)
    (126, 0, 1, "s1.s2.s3.j1.cl.j2.j3_p3.p1_c3.c2_c2.c3"),             # second block allocated by whoever comes first
    # after clear() a consumer of the new epoch has to block exactly where a consumer of a new topic would:
    (0, 256, 0, "q2.cl.clr.s1.j1_sub.c1"),                             # ... on slot 0 (was PUBLISHED)
    (0, 256, 0, "q3.cl.clr.q3.s1.j1_sub.c4"),                          # ... on slot 3 (was CLOSED) after 3 fresh items
    (126, 256, 0, "q2.cl.clr.q1.s1.j1_sub.c3"),                        # ... on slot 1 (published before the run started)
]
PB = [
    (127, 256, 1, "s1.s2.j1.cl.j2_p2_c2.c1"),
    (0, 256, 1, "s1.s2.j1.j2_q1.cl_c2"),
    (127, 256, 1, "s1.s2.s3.j1.j2.cl.j3_p1_p1_c2.c1"),
]

CLAUSES = {"InOrderExactlyOnce", "EndOnlyAtLogEnd", "PublishersNeverShareSlot", "BlocksOnlyWhileNothingNew", "NoLivelock", "NoCrash",
           "ClearActsAsNew", "NoDataRace", "NoLostWakeup", "NoDeadlock", "Termination", "temporal", "deadlock"}


def gen_program(rng):
    """random client program: 1-2 publishers, 1-2 consumers, <= 6 items, optional second epoch after clear()"""
    pre = rng.choice([0, 125, 126, 127, 127])
    epochs = rng.choice([1, 1, 2])
    live = 1
    main, threads = [], []
    for ep in range(epochs):
        first = len(threads) + 1
        npub, ncons = rng.choice([1, 1, 2]), rng.choice([1, 2])
        selfclose = npub == 1 and rng.random() < 0.4
        noclose = epochs == 1 and rng.random() < 0.12
        total = 0
        pubs = []
        for _ in range(npub):
            ops = []
            for _ in range(rng.choice([1, 2])):
                if total >= 5:
                    break
                n = rng.choice([1, 1, 2, 3])
                conc = npub > 1 or rng.random() < 0.6
                if n == 1 and rng.random() < 0.5:
                    ops.append("pv" if conc else "qv")
                else:
                    ops.append(("p" if conc else "q") + str(n))
                total += n
            if not ops:
                ops = ["pv"]
                total += 1
            pubs.append(ops)
        if selfclose and not noclose:
            pubs[0].append("cl")
        cons = []
        for _ in range(ncons):
            ops = ["sub"] if ep > 0 else []
            got = 0
            while got <= total and len(ops) < 7:
                n = rng.choice([1, 2, 3])
                ops.append("c%d" % n)
                got += n
            cons.append(ops)
        if noclose:
            live = 0
        roles = [("p", o) for o in pubs] + [("c", o) for o in cons]
        rng.shuffle(roles)
        ids = list(range(first, first + len(roles)))
        for (_, ops) in roles:
            threads.append(ops)
        main += ["s%d" % i for i in ids]
        pid = [i for i, (r, _) in zip(ids, roles) if r == "p"]
        cid = [i for i, (r, _) in zip(ids, roles) if r == "c"]
        main += ["j%d" % i for i in pid]
        if not selfclose and not noclose:
            main.append("cl")
        main += ["j%d" % i for i in cid]
        if ep + 1 < epochs:
            main.append("clr")
    prog = "_".join(".".join(t) for t in [main] + threads)
    return pre, 256, live, prog


def params_of(pre, rsv, live, prog):
    return "pre=%d,rsv=%d,live=%d,prog=%s" % (pre, rsv, live, prog)


def record(progs, seeds, strategy, out, jobs=None, extra=None):
    """run every program for the seed range; returns list of executions (lists of events)"""
    execs = []
    status = {}
    os.makedirs(os.path.dirname(out), exist_ok=True)
    for idx, (pre, rsv, live, prog) in enumerate(progs):
        raw = "%s.%d.ndjson" % (out, idx)
        args = ["--scenario", "topic", "--params", params_of(pre, rsv, live, prog), "--strategy", strategy, "--seeds", "%d:%d" % seeds, "--out", raw, "--max-steps", "20000"]
        if strategy != "pb":
            args += ["-j", str(jobs or 8)]
        if extra:
            args += extra
        s = vlib.driver_status(vlib.driver(DRIVER, args))
        for k, v in s["status"].items():
            status[k] = status.get(k, 0) + v
        execs += list(vlib.split_traces(raw))
        os.unlink(raw)
    return execs, status


def regen_mo(pairs, committed_path, out_dir):
    """site->order table from the pairs seen in the running code; sites not exercised keep the committed order"""
    text = open(committed_path).read()
    committed = dict(re.findall(r"(\w+) \|-> \"(\w+)\"", text))
    rank = {"none": 0, "rlx": 1, "con": 2, "acq": 2, "rel": 2, "ar": 3, "sc": 4}
    seen = {}
    for site, mo in pairs:
        if site in seen and seen[site] != mo:
            a, b = seen[site], mo
            if rank[a] == rank[b]:
                seen[site] = "rlx"      # incomparable orders at one site: the weakest common strength
            else:
                seen[site] = a if rank[a] < rank[b] else b
        else:
            seen[site] = mo
    table = dict(committed)
    table.update({k: v for k, v in seen.items() if k in committed})
    unknown = sorted(k for k in seen if k not in committed)
    changed = {k: (committed[k], table[k]) for k in committed if table[k] != committed[k]}
    unobserved = sorted(k for k in committed if k not in seen)
    path = None
    if changed:
        os.makedirs(out_dir, exist_ok=True)
        path = os.path.join(out_dir, "MO_Topic.tla")
        body = ",\n  ".join('%s |-> "%s"' % (k, table[k]) for k in committed)
        open(path, "w").write("----------------------------- MODULE MO_Topic -----------------------------\n(* generated from the running code *)\nMO == [\n  %s\n]\n=============================================================================\n" % body)
    return table, changed, unobserved, unknown, path


def exec_key(ex):
    h = ex[0]
    return {"scenario": h["scn"], "params": h["params"], "seed": h["seed"], "strategy": h["strategy"], "script": h.get("script", [])}


def rerun(key):
    """re-execute one recorded execution deterministically"""
    p = key["params"]
    params = ",".join("%s=%s" % (k, v) for k, v in p.items())
    raw = os.path.join(vlib.BUILD, "traces", "rerun.%d.ndjson" % os.getpid())
    st = key["strategy"]
    args = ["--scenario", key["scenario"], "--params", params, "--seeds", "%d:%d" % (key["seed"], key["seed"] + 1), "--out", raw, "--max-steps", "20000"]
    if key.get("script") and st == "pb":
        args += ["--strategy", "pb", "--script", ",".join(map(str, key["script"])), "--max-execs", "1"]
    elif st in ("pct", "random"):
        args += ["--strategy", "mix"]
    else:
        args += ["--strategy", st]
    vlib.driver(DRIVER, args)
    ex = list(vlib.split_traces(raw))
    os.unlink(raw)
    return ex[0] if ex else None


def hb_lines(ex):
    """HBMon input; the reset stores of clear() to slots the program never touches are left out (unobservable)"""
    c = tc.config_of(ex[0])
    keep = set(c["slots"])

    def used(e):
        if e.get("k") == "store" and e.get("sz") == 4:
            si = tc.slot_index(e)
            return si is None or si in keep
        return True
    return bq.hb_lines([e for e in ex if used(e)], tc.topic_acc)


def clause_of(name, iss):
    clause = iss.kind.split(":", 1)[1]
    if name == "L1":
        m = re.findall(r'bad = "(\w+)"', iss.detail)
        return m[-1] if m and m[-1] else clause
    if name == "HB":
        return "NoDataRace"
    return clause[1:] if clause.startswith("T") else clause


def summarise_behaviour(out):
    """one line per state of a TLC counterexample: the operation (ghost variable ev) that led to it"""
    rows = []
    for blk in out.split("\nState ")[1:]:
        m = re.search(r"/\\ ev = \[(.*?)\]\n(?:/\\|\n|$)", blk, re.S)
        if not m:
            continue
        f = dict(re.findall(r"(\w+) \|-> (\"[^\"]*\"|-?\w+)", m.group(1)))
        if f.get("k", '""') == '""':
            continue
        rows.append("%4s  t=%s %-6s %-24s %s[%s] v=%s a=%s b=%s ok=%s %s n=%s res=%s" % (
            blk.split(":", 1)[0], f.get("t"), f.get("k", "").strip('"'), f.get("site", "").strip('"'), f.get("loc", "").strip('"'), f.get("i"),
            f.get("v"), f.get("a"), f.get("b"), f.get("ok"), f.get("op", "").strip('"'), f.get("n"), f.get("res")))
    return "\n".join(rows)


def model_check(tier, table, lib, names=None):
    """TLC on the L2 model with the given order table; returns [(name, cfg, result)]"""
    tag = json.dumps(table, sort_keys=True)
    mcs = [("sc_quick", "Topic_quick_sc.cfg", "MC_Topic.tla"), ("wm", "Topic_wm.cfg", "MC_Topic.tla")]
    if tier == "thorough":
        mcs += [("sc2", "Topic_sc2_sc.cfg", "MC_Topic.tla"), ("wm2", "Topic_wm2.cfg", "MC_Topic.tla"), ("live", "Topic_live.cfg", "MC_Topic.tla")]
    out = []
    for name, cfg, tla in mcs:
        p = os.path.join(SPEC, "mc", cfg)
        if not os.path.exists(p) or (names and name not in names):
            continue
        r = vlib.tlc(os.path.join(SPEC, tla), p, cache=True, extra_hash=tag, lib_dirs=lib, timeout=3000, heap="16g",
                     workers=max(4, vlib.NCPU // 2))
        out.append((name, cfg, r))
    return out


def run(pid, tier, seed, replay=None):
    V = vlib.Verdict(pid, tier, seed)
    if replay and hasattr(V, "write_evidence"):
        V.write_evidence = False
    rng = random.Random(seed * 7919 + 15)
    vlib.build([DRIVER])
    mo_committed = os.path.join(SPEC, "mo", "MO_Topic.tla")
    committed = dict(re.findall(r"(\w+) \|-> \"(\w+)\"", open(mo_committed).read()))
    pool = ThreadPoolExecutor(max_workers=8)
    # model checking with the committed table starts right away (result is reused if the code's table is the same)
    mc_future = None if replay else pool.submit(model_check, tier, committed, [])

    if replay:
        key = json.load(open(replay))
        ex = rerun(key["exec"])
        execs, status = [ex], {}
    else:
        nseeds = 10 if tier == "quick" else 100
        nrand = 12 if tier == "quick" else 150
        tr = os.path.join(vlib.BUILD, "traces")
        execs, status = record(FIXED, (seed * 1000 + 1, seed * 1000 + 1 + nseeds), "mix", os.path.join(tr, pid + "_fixed"))
        rprogs = [gen_program(rng) for _ in range(nrand)]
        e2, s2 = record(rprogs, (seed * 1000 + 1, seed * 1000 + (4 if tier == "quick" else 7)), "mix", os.path.join(tr, pid + "_rand"), jobs=4)
        execs += e2
        e3, s3 = record(PB, (1, 2), "pb", os.path.join(tr, pid + "_pb"), extra=["--pb-bound", "2" if tier == "quick" else "3", "--max-execs", "100" if tier == "quick" else "2000"])
        execs += e3
        for s in (s2, s3):
            for k, v in s.items():
                status[k] = status.get(k, 0) + v
    V.extra["executions"] = len(execs)
    V.extra["exec_status"] = status
    V.extra["program_list"] = sorted({ex[0]["params"]["prog"] for ex in execs})[:80]

    # ---- validation of the recorded executions (layers and chunks in parallel)
    named = [i for i, ex in enumerate(execs) if int(ex[0]["params"].get("rsv", 256)) > 0]   # L2 needs named slot words
    layers = {
        "L1": (os.path.join(SPEC, "Topic_Mon.tla"), os.path.join(SPEC, "mc", "Topic_Mon.cfg"), tc.monitor_lines, list(range(len(execs)))),
        "HB": (os.path.join(SPEC, "lib", "HBMon.tla"), os.path.join(SPEC, "mc", "HBMon.cfg"), hb_lines, list(range(len(execs)))),
        "L2": (os.path.join(SPEC, "Topic_Trace.tla"), os.path.join(SPEC, "mc", "Topic_Trace.cfg"), tc.normalise, named),
    }
    nchunks = {"L1": 1, "HB": 2, "L2": 4} if tier == "quick" else {"L1": 2, "HB": 4, "L2": 6}
    jobs = []
    for name, (tla, cfg, conv, idxs) in layers.items():
        k = max(1, min(nchunks[name], len(idxs)))
        for c in range(k):
            part = idxs[c::k]
            if part:
                jobs.append((name, part, pool.submit(tc.check_traces, tla, cfg, [conv(execs[i]) for i in part], "%s_%s%d" % (pid, name, c), 4)))
    results = {n: [0, [], {"states": 0, "wall": 0.0, "unchecked": 0, "pairs": set()}] for n in layers}
    for name, part, fut in jobs:
        acc, issues, st = fut.result()
        R = results[name]
        R[0] += acc
        for iss in issues:
            iss.exec_index = part[iss.exec_index]
            R[1].append(iss)
        R[2]["states"] += st["states"]
        R[2]["wall"] = max(R[2]["wall"], st["wall"])
        R[2]["unchecked"] += st["unchecked"]
        R[2]["pairs"].update(tuple(p) for p in st["pairs"])

    seen_kinds = {}
    for name in ("L1", "HB", "L2"):
        tla, cfg, conv, _ = layers[name]
        acc, issues, st = results[name]
        V.cov["transitions"] += st["states"]
        V.extra["trace_" + name] = {"accepted": acc, "issues": len(issues), "tlc_states": st["states"], "wall_s": round(st["wall"], 1), "unchecked": st["unchecked"]}
        for iss in issues:
            ex = execs[iss.exec_index]
            key = exec_key(ex)
            if iss.kind == "rejected":
                if name == "L2":
                    V.drift += 1
                    log("SPEC-DRIFT component=transient_topic exec=%s seed=%s line=%d %s" % (json.dumps(key["params"]), key["seed"], iss.line, iss.detail))
                    continue
                raise vlib.Broken("%s monitor rejected a trace (monitors must accept every well-formed trace): %s" % (name, iss.detail))
            what = clause_of(name, iss)
            if what == "Protocol":
                raise vlib.Broken("ill-formed client program / event sequence: %s" % json.dumps(key))
            base = what.split("_")[0] if what.startswith("ClearActsAsNew") else what
            if base not in CLAUSES:
                V.extra.setdefault("other_property_clauses_seen", []).append(what)
                continue
            seen_kinds[(name, what)] = seen_kinds.get((name, what), 0) + 1
            if seen_kinds[(name, what)] > 3:
                V.extra["further_violating_executions"] = V.extra.get("further_violating_executions", 0) + 1
                continue
            # reproducibility: the same schedule must fail again (checked for the first witness of each clause)
            if not replay and seen_kinds[(name, what)] == 1:
                ex2 = rerun(key)
                lines2 = [conv(ex2)] if ex2 else []
                _, iss2, _ = tc.check_traces(tla, cfg, lines2, pid + "_re") if lines2 else (0, [], {})
                if not iss2:
                    raise vlib.Broken("violation %s did not reproduce on re-execution of %s" % (what, json.dumps(key)))
            rp = vlib.save_replay(pid, "%s_%s_%d.json" % (name, what, iss.exec_index), {"exec": key, "clause": what, "layer": name, "line": iss.line, "trace": ex[:400]})
            V.violation("%s violated on an execution of the real code (%s layer) params=%s pre=%s seed=%s" % (what, name, key["params"].get("prog"), key["params"].get("pre"), key["seed"]), rp)
    V.cov["traces_validated_against_impl"] = results["L1"][0] + results["L2"][0] + results["HB"][0]
    for ex in execs[:2]:
        V.sample({"program": ex[0]["params"], "strategy": ex[0]["strategy"], "events": len(ex), "first_events": ex[1:8]})

    # ---- order table read from the running code
    table, changed, unobserved, unknown, mo_path = regen_mo(sorted(results["L2"][2]["pairs"]), mo_committed, os.path.join(vlib.BUILD, "gen", "mo_" + pid))
    V.extra["mo_table"] = table
    V.extra["mo_changed_vs_committed"] = {k: list(v) for k, v in changed.items()}
    V.extra["mo_sites_unobserved"] = unobserved
    V.extra["l2_conformant"] = V.drift == 0

    # ---- TLC on the L2 model with the code's orders
    if not replay:
        runs = mc_future.result()
        if changed:
            for name, cfg, r in runs:   # the committed table must hold on its own (else the spec is wrong)
                if not r.ok and r.violation in ("tlc_error", "timeout"):
                    raise vlib.Broken("TLC failed on %s: %s" % (cfg, r.error_trace[:2000]))
            V.extra["tlc_committed_table"] = {name: {"ok": r.ok, "violation": r.violation, "distinct": r.distinct} for name, cfg, r in runs}
            runs = model_check(tier, table, [os.path.dirname(mo_path)])
        for name, cfg, r in runs:
            V.add_tlc(name, r)
            if not r.ok:
                if r.violation in ("tlc_error", "timeout"):
                    raise vlib.Broken("TLC failed on %s: %s" % (cfg, r.error_trace[:2000]))
                clause = r.violation
                if V.drift:
                    log("NOTE: TLC counterexample for %s ignored for the verdict because the L2 spec drifted from the code" % clause)
                    continue
                rp = vlib.save_replay(pid, "tlc_%s_%s.txt" % (name, clause), "order table (from the running code): %s\nchanged vs committed: %s\n\nbehaviour (one step per line):\n%s\n\n%s" % (json.dumps(table), json.dumps(changed), summarise_behaviour(r.out), r.error_trace))
                V.violation("%s violated in the L2 model %s with the memory orders the code executes (changed: %s)" % (clause, cfg, json.dumps(changed)), rp)
        V.cov["exhaustive"] = True
    pool.shutdown(wait=False)
    V.extra["model_constants"] = "block size 2; <= 2 publishers (single + batch 2), <= 2 consumers (batch 1-3), <= 4 items, close racing the last publish, 2 publish/close/clear cycles; see spec/MC_Topic.tla Cfg_*"
    V.assumptions += [
        "WeakMem.tla is a subset of ISO C++ (promise-free release/acquire + fences, stores at the end of mo); seq_cst accesses have hardware strength",
        "mixed-size access to the futex word (16-bit status store, 32-bit waker load) is modelled at hardware level: a wide load may combine the thread's own half with a stale other half until a seq_cst fence/RMW",
        "the slot vector is abstracted (C04): slots exist and keep their address; only the acquire load of the block table and the splitting of ranges at block boundaries are modelled",
        "compare_exchange_weak never fails spuriously (vsched does not inject such failures; both uses are followed by a re-check)",
        "close() is called after every publish returned (API contract); clear() is called without concurrent users",
        "executions are serialised by vsched: one thread runs between two atomic operations; weak-memory outcomes are decided on the model, not on the host",
    ]
    return V.finish()
