"""C01 / C02: ConcurrentBoundedQueue.  Pipeline (DESIGN.md 2.4):
   1. TLC model-checks the L2 spec BQ.tla (SC family + weak-memory family) with the committed order table
   2. the real queue is run under vsched (random / PCT / preemption-bounded schedules, spec-chosen programs)
   3. every recorded execution is validated against  BQ_Trace (L2 conformance, collects site->order),
      BQ_Mon (L1 clauses of the property statement) and HBMon (generic happens-before)
   4. the order table read from the running code is compared with the committed one; if it differs the
      model is re-checked with the code's orders (conformant L2 + TLC counterexample = V2)
"""
import json
import os
import random
import re
import sys

sys.path.insert(0, os.path.dirname(os.path.abspath(__file__)))
import bq_common as bq
import vlib
from vlib import log

SPEC = vlib.SPEC
C01_CLAUSES = {"NoDupNoInvent", "Conservation", "RealTimeFIFO", "Exclusive", "Intact", "TryJustified", "NoDataRace", "NoCrash", "Protocol",
               "TNoDataRace", "TNoDupNoInvent", "TTryJustified", "TRealTimeFIFO", "TConservation", "Holds"}
C02_CLAUSES = {"NoDeadlock", "NoLivelock", "NoLostWakeup", "TimedPopBound", "TNoLostWakeup", "Termination", "temporal", "deadlock"}

# programs exercised on every run: (cap, base, prog)
FIXED_C01 = [
    (1, 0, "pu.pu_po.po"),
    (2, 0, "pu.pu_pu_po.po_po"),
    (2, 0, "tpu.tpu.tpu_tpo.tpo.tpo_tpu.tpo"),
    (4, 0, "pun3.pun2_pon2.pon3"),
    (2, 0, "pun2.pun2_pon2.po.po"),
    (4, 0, "tpun3.tpun3_tpon2.tpon4"),
    (2, 0, "tpun2.tpu_tpon2.tpo"),
    (2, 0, "cpun2.cpun2_cpon2.cpon1"),
    (2, 0, "cpun2.cpun1_cpun1"),
    (2, 0, "pu:101.pu:101_po:110.po:110"),
    (2, 0, "pu:011.pu:011_po:011.po:011"),
    (2, 0, "pun2:000.pu:000_pon2:000.po:000"),
    (2, 65534, "pu.pu.pu_po.po.po"),          # 16-bit version wrap (32767 rounds done)
    (1, 32767, "pun1.pun1_pon1.pon1"),
    (1, 32767, "pu.pu_po_po"),                # several waiters of one role parked across the wrap
    (1, 32767, "pu_pu_po.po"),
    (2, 65534, "pu.pu.pu_po.po_po"),
    (2, 65534, "pun2.pun2_pon2_pon2"),
    (1, 32767, "pu:100.pu:100_po:100.po:100"),      # spin waiters across the wrap
    (2, 65534, "pun2:100.pu:100.pu:100_pon2:100_po:100.po:100"),
    # non-concurrent (CONCURRENT = false) try batches spanning the ring boundary while the other side is mid-operation
    (2, 0, "pu:011.pu:011.pu:011.tpun2:011_po.tpo_po.tpo"),
    (4, 0, "pun3:011.tpun3:011.tpun2:011_pon2.tpo_po.tpon2"),
    (2, 0, "pu.pu_pu.tpu_po:011.tpon2:011.tpon2:011"),
    (4, 0, "pun3.pu_pu.tpun2_pon2:011.tpon3:011.tpon2:011"),
]
FIXED_C02 = [
    (1, 0, "pu.pu.pu_po.po.po"),
    (1, 0, "pu_pu_po_po"),
    (2, 0, "pun2.pun2_pon2.pon2"),
    (2, 0, "pun2.pun1_po.po.po"),
    (2, 0, "pu.pu.pu_pon2.pon1"),
    (1, 0, "pun1.pun1_po.po"),
    (2, 0, "pu:101.pu:101.pu:101_po:110.po:110.po:110"),
    (2, 0, "pu:110.pu:110.pu:110_po:101.po:101.po:101"),
    (2, 0, "pun2:110.pun2:110_pon2:101.pon2:101"),
    (2, 0, "pu:100.pu:100.pu:100_po:100.po:100.po:100"),
    (1, 32767, "pu.pu_po.po"),
    (1, 32767, "pu.pu_po_po"),
    (1, 32767, "pu_pu_po.po"),
    (2, 65534, "pun2.pu.pu_pon2_po.po"),
    (1, 32767, "pu:100.pu:100.pu:100_po:100.po:100.po:100"),   # spin waiters across the wrap
    (1, 32767, "pu:100_pu:100_po:100.po:100"),
    (2, 65534, "pun2:100.pun2:100_pon2:100.po:100.po:100"),
    (2, 0, "pu.pu_xpon2"),
    (4, 0, "pu.pu.pu_xpon2.xpon2"),
    (4, 0, "pun2.pu_xpon2.xpon1"),
]
PB_C01 = [(1, 0, "pu_po"), (1, 0, "tpu_tpo"), (2, 0, "pun2_pon2"), (1, 0, "pu_pu_po")]
PB_C02 = [(1, 0, "pu_po"), (1, 0, "pun1_po"), (1, 0, "pu_pon1"), (1, 0, "pu:101_po:110"), (1, 0, "pu.pu_po.po")]


def gen_program(rng, for_c02):
    """random client program respecting the documented pairing rules"""
    cap = rng.choice([1, 2, 2, 4])
    style = rng.choice(["block", "batch", "try", "comp", "mixed"] if not for_c02 else ["block", "batch", "block", "batch", "timed"])
    nprod = rng.choice([1, 2])
    ncons = 1 if style == "timed" else rng.choice([1, 2])
    # flags
    while True:
        pw, pk, cw, ck = [rng.random() < 0.7 for _ in range(4)]
        if (not pw or ck) and (not cw or pk):
            break
    if style == "timed":
        pk = True
    pc = True if nprod > 1 else rng.random() < 0.7
    cc = True if ncons > 1 else rng.random() < 0.7

    def fl(c, w, k):
        return ":%d%d%d" % (c, w, k)

    prods, cons = [], []
    if style in ("block", "batch", "timed"):
        total = 0
        for _ in range(nprod):
            ops = []
            for _ in range(rng.choice([1, 2, 3])):
                if style == "timed" and total >= cap:
                    break  # the timed consumer may pop nothing: never let a producer block for good
                if style == "block" or cap == 1 and rng.random() < 0.5:
                    ops.append("pu" + fl(pc, pw, pk))
                    total += 1
                else:
                    n = rng.randint(1, cap - total if style == "timed" else cap)
                    ops.append("pun%d%s" % (n, fl(pc, pw, pk)))
                    total += n
            if ops:
                prods.append(ops)
        if style == "timed":
            ops = []
            for _ in range(rng.choice([1, 2, 3])):
                ops.append("xpon%d%s" % (rng.randint(1, cap), fl(False, True, ck)))
            cons.append(ops)
        else:
            left = total
            cons = [[] for _ in range(ncons)]
            i = 0
            while left > 0:
                if style == "block" or rng.random() < 0.4:
                    cons[i % ncons].append("po" + fl(cc, cw, ck))
                    left -= 1
                else:
                    n = rng.randint(1, min(cap, left))
                    cons[i % ncons].append("pon%d%s" % (n, fl(cc, cw, ck)))
                    left -= n
                i += 1
            cons = [c for c in cons if c]
    elif style == "try":
        for _ in range(nprod):
            prods.append([rng.choice(["tpu", "tpun%d" % rng.randint(1, cap)]) + fl(pc, True, pk) for _ in range(rng.choice([1, 2, 3]))])
        for _ in range(ncons):
            cons.append([rng.choice(["tpo", "tpon%d" % rng.randint(1, cap)]) + fl(cc, True, ck) for _ in range(rng.choice([1, 2, 3]))])
    elif style == "comp":
        for _ in range(nprod):
            prods.append(["cpun%d" % rng.randint(1, cap) for _ in range(rng.choice([1, 2]))])
        for _ in range(ncons):
            cons.append(["cpon%d" % rng.randint(1, cap) for _ in range(rng.choice([1, 2]))])
    else:  # mixed: blocking producers, try consumers and vice versa (never both blocking -> cannot hang by construction? it can: not judged)
        for _ in range(nprod):
            prods.append([rng.choice(["tpu", "tpun%d" % rng.randint(1, cap), "cpun%d" % rng.randint(1, cap)]) + "" for _ in range(rng.choice([1, 2, 3]))])
        for _ in range(ncons):
            cons.append([rng.choice(["tpo", "tpon%d" % rng.randint(1, cap), "cpon%d" % rng.randint(1, cap)]) + "" for _ in range(rng.choice([1, 2, 3]))])
    base = rng.choice([0, 0, 0, 32767 * cap, 32766 * cap])
    prog = "_".join(".".join(t) for t in prods + cons)
    return cap, base, prog


SPURIOUS = 25  # per-mille chance per scheduling decision of a spurious futex return (legal: the code must re-check)


def params_of(cap, base, prog, to_us=5000):
    return "cap=%d,base=%d,prog=%s,to_us=%d" % (cap, base, prog, to_us)


def record(progs, seeds, strategy, out, jobs=None, extra=None):
    """run every program for the seed range; returns list of executions (lists of events)"""
    execs = []
    status = {}
    os.makedirs(os.path.dirname(out), exist_ok=True)
    for idx, (cap, base, prog) in enumerate(progs):
        raw = "%s.%d.ndjson" % (out, idx)
        args = ["--scenario", "bq", "--params", params_of(cap, base, prog), "--strategy", strategy, "--seeds", "%d:%d" % seeds, "--out", raw, "--max-steps", "20000", "--spurious", str(SPURIOUS)]
        if strategy != "pb":
            args += ["-j", str(jobs or 8)]
        if extra:
            args += extra
        s = vlib.driver_status(vlib.driver("bq_driver", args))
        for k, v in s["status"].items():
            status[k] = status.get(k, 0) + v
        execs += list(vlib.split_traces(raw))
        os.unlink(raw)
    return execs, status


def regen_mo(pairs, committed_path, out_dir):
    """site->order table from the pairs seen in the running code; sites not exercised keep the committed order"""
    text = open(committed_path).read()
    committed = dict(re.findall(r"(\w+) \|-> \"(\w+)\"", text))
    rank = {"none": 0, "rlx": 1, "con": 2, "acq": 2, "rel": 2, "ar": 3, "sc": 4}
    seen = {}
    for site, mo in pairs:
        if site in seen and seen[site] != mo:
            a, b = seen[site], mo
            if rank[a] == rank[b]:
                seen[site] = "rlx"      # incomparable orders at one site: the weakest common strength
            else:
                seen[site] = a if rank[a] < rank[b] else b
        else:
            seen[site] = mo
    table = dict(committed)
    table.update({k: v for k, v in seen.items() if k in committed})
    unknown = sorted(k for k in seen if k not in committed)
    changed = {k: (committed[k], table[k]) for k in committed if table[k] != committed[k]}
    unobserved = sorted(k for k in committed if k not in seen)
    path = None
    if changed:
        os.makedirs(out_dir, exist_ok=True)
        path = os.path.join(out_dir, "MO_BQ.tla")
        body = ",\n  ".join('%s |-> "%s"' % (k, table[k]) for k in committed)
        open(path, "w").write("------------------------------ MODULE MO_BQ ------------------------------\n(* generated from the running code *)\nMO == [\n  %s\n]\n=============================================================================\n" % body)
    return table, changed, unobserved, unknown, path


def exec_key(ex):
    h = ex[0]
    return {"scenario": h["scn"], "params": h["params"], "seed": h["seed"], "strategy": h["strategy"], "script": h.get("script", [])}


def rerun(key):
    """re-execute one recorded execution deterministically"""
    p = key["params"]
    params = ",".join("%s=%s" % (k, v) for k, v in p.items())
    raw = os.path.join(vlib.BUILD, "traces", "rerun.%d.ndjson" % os.getpid())
    st = key["strategy"]
    args = ["--scenario", key["scenario"], "--params", params, "--seeds", "%d:%d" % (key["seed"], key["seed"] + 1), "--out", raw, "--max-steps", "20000", "--spurious", str(SPURIOUS)]
    if key.get("script") and st == "pb":
        args += ["--strategy", "pb", "--script", ",".join(map(str, key["script"])), "--max-execs", "1"]
    elif st == "pct":
        args += ["--strategy", "mix"]
    elif st == "random":
        args += ["--strategy", "mix"]
    else:
        args += ["--strategy", st]
    vlib.driver("bq_driver", args)
    ex = list(vlib.split_traces(raw))
    os.unlink(raw)
    return ex[0] if ex else None


def run(pid, tier, seed, replay=None):
    V = vlib.Verdict(pid, tier, seed)
    mine = C01_CLAUSES if pid == "C01" else C02_CLAUSES
    rng = random.Random(seed * 7919 + (1 if pid == "C01" else 2))
    vlib.build(["bq_driver"])
    mo_committed = os.path.join(SPEC, "mo", "MO_BQ.tla")

    if replay:
        V.write_evidence = False
        key = json.load(open(replay))
        ex = rerun(key["exec"])
        execs, status = [ex], {}
    else:
        fixed = FIXED_C01 if pid == "C01" else FIXED_C02
        nseeds = 24 if tier == "quick" else 120
        nrand = 30 if tier == "quick" else 300
        execs, status = record(fixed, (seed * 1000 + 1, seed * 1000 + 1 + nseeds), "mix", os.path.join(vlib.BUILD, "traces", pid + "_fixed"))
        rprogs = [gen_program(rng, pid == "C02") for _ in range(nrand)]
        e2, s2 = record(rprogs, (seed * 1000 + 1, seed * 1000 + (5 if tier == "quick" else 9)), "mix", os.path.join(vlib.BUILD, "traces", pid + "_rand"), jobs=4)
        execs += e2
        pbp = PB_C01 if pid == "C01" else PB_C02
        e3, s3 = record(pbp, (1, 2), "pb", os.path.join(vlib.BUILD, "traces", pid + "_pb"), extra=["--pb-bound", "2" if tier == "quick" else "3", "--max-execs", "700" if tier == "quick" else "4000"])
        execs += e3
        # spec -> code: TLC-generated behaviours of the L2 model replayed step by step into the real queue
        nbeh = 60 if tier == "quick" else 500
        beh = bq.tlc_behaviours(os.path.join(SPEC, "MC_BQ.tla"), os.path.join(SPEC, "mc", "BQ_sim.cfg"), nbeh, 160, seed, os.path.join(vlib.BUILD, "sim_" + pid))
        sf = os.path.join(vlib.BUILD, "traces", pid + "_scripts.txt")
        open(sf, "w").write("\n".join("cap=%d,base=%d,prog=%s|%s" % (c, b, p, ",".join(map(str, st))) for c, b, p, st in beh) + "\n")
        raw = os.path.join(vlib.BUILD, "traces", pid + "_replay.ndjson")
        s4 = vlib.driver_status(vlib.driver("bq_driver", ["--scenario", "bq", "--scripts-file", sf, "--out", raw, "--max-steps", "20000"]))
        e4 = list(vlib.split_traces(raw))
        os.unlink(raw)
        followed = 0
        for ex, (c, b, p, st) in zip(e4, beh):
            order = [(-1 if x["k"] == "tick" else (-2 - x["t"]) if x["k"] == "spur" else x["t"]) for x in bq.normalise(ex) if x["k"] not in ("reset", "end", "final")]
            if order[:len(st)] == st and ex[-1].get("status") != "script_mismatch":
                followed += 1
            else:
                V.drift += 1
                log("SPEC-DRIFT component=bounded_queue replay of TLC behaviour not followed: prog=%s status=%s" % (p, ex[-1].get("status")))
        V.extra["tlc_behaviours_replayed"] = {"generated": len(beh), "followed_exactly": followed, "steps": sum(len(b[3]) for b in beh)}
        execs += e4
        for s in (s2, s3, s4["status"]):
            for k, v in s.items():
                status[k] = status.get(k, 0) + v
    V.extra["executions"] = len(execs)
    V.extra["exec_status"] = status

    # ---- validation of the recorded executions
    LAYERS = (
        ("L1", os.path.join(SPEC, "BQ_Mon.tla"), os.path.join(SPEC, "mc", "BQ_Mon.cfg"), bq.monitor_lines),
        ("HB", os.path.join(SPEC, "lib", "HBMon.tla"), os.path.join(SPEC, "mc", "HBMon.cfg"), lambda ex: bq.hb_lines(ex, bq.bq_acc(int(ex[0]["params"]["cap"])))),
        ("L2", os.path.join(SPEC, "BQ_Trace.tla"), os.path.join(SPEC, "mc", "BQ_Trace.cfg"), bq.normalise),
    )
    results = {}
    drifting = []

    def validate(batch, layers, tag):
        for name, tla, cfg, conv in layers:
            lines = [conv(ex) for ex in batch]
            acc, issues, st = vlib.check_traces(tla, cfg, lines, pid + "_" + name + tag)
            prev = results.get(name, (0, [], {"pairs": []}))
            results[name] = (prev[0] + acc, prev[1] + issues, {"pairs": sorted(set(prev[2]["pairs"]) | set(st["pairs"]))})
            V.cov["transitions"] += st["states"]
            e = V.extra.setdefault("trace_" + name, {"accepted": 0, "issues": 0, "tlc_states": 0, "wall_s": 0.0, "unchecked": 0})
            e["accepted"] += acc
            e["issues"] += len(issues)
            e["tlc_states"] += st["states"]
            e["wall_s"] = round(e["wall_s"] + st["wall"], 1)
            e["unchecked"] += st["unchecked"]
            for iss in issues:
                ex = batch[iss.exec_index]
                key = exec_key(ex)
                if iss.kind == "rejected":
                    if name == "L2":
                        V.drift += 1
                        drifting.append(key)
                        log("SPEC-DRIFT component=bounded_queue exec=%s line=%d %s" % (json.dumps(key["params"]), iss.line, iss.detail))
                        continue
                    raise vlib.Broken("%s monitor rejected a trace (monitors must accept every well-formed trace): %s" % (name, iss.detail))
                clause = iss.kind.split(":", 1)[1]
                what = clause
                if name == "L1":
                    m = re.findall(r'bad = "(\w+)"', iss.detail)
                    what = m[-1] if m and m[-1] else ("RealTimeFIFO" if clause == "Holds" else clause)
                if name == "HB":
                    what = "NoDataRace"
                if what.lstrip("T") not in {c.lstrip("T") for c in mine}:
                    V.extra.setdefault("other_property_clauses_seen", []).append(what)
                    continue
                # reproducibility: the same schedule must fail again
                if not replay:
                    ex2 = rerun(key)
                    lines2 = [conv(ex2)] if ex2 else []
                    _, iss2, _ = vlib.check_traces(tla, cfg, lines2, pid + "_re") if lines2 else (0, [], {})
                    if not iss2:
                        raise vlib.Broken("violation %s did not reproduce on re-execution of %s" % (what, json.dumps(key)))
                rp = vlib.save_replay(pid, "%s_%s_%d%s.json" % (name, what, iss.exec_index, tag), {"exec": key, "clause": what, "layer": name, "line": iss.line, "trace": ex[:400]})
                V.violation("%s violated on an execution of the real code (%s layer) params=%s seed=%s" % (what, name, key["params"].get("prog"), key["seed"]), rp)

    validate(execs, LAYERS, "")

    # ---- drift-guided intensification: where the code no longer follows the L2 specification the
    # specification's exhaustive exploration no longer speaks for it, so the real code is explored much
    # harder exactly there (L1 + HB verdicts only)
    if drifting and not replay and not V.violations:
        seen = []
        for key in drifting:
            p = key["params"]
            t = (int(p["cap"]), int(p.get("base", 0)), p["prog"])
            if t not in seen:
                seen.append(t)
        seen = seen[:4]
        extra, sx = record(seen, (seed * 1000 + 500, seed * 1000 + 500 + (300 if tier == "quick" else 3000)), "mix", os.path.join(vlib.BUILD, "traces", pid + "_driftmix"))
        e5, s5 = record(seen, (1, 2), "pb", os.path.join(vlib.BUILD, "traces", pid + "_driftpb"), extra=["--pb-bound", "3", "--max-execs", "1500" if tier == "quick" else "30000"])
        extra += e5
        V.extra["drift_guided_executions"] = len(extra)
        execs += extra
        validate(extra, LAYERS[:2], "_dg")

    V.cov["traces_validated_against_impl"] = results["L1"][0] + results["L2"][0] + results["HB"][0]
    for ex in execs[:2]:
        V.sample({"program": ex[0]["params"], "strategy": ex[0]["strategy"], "events": len(ex), "first_events": ex[1:8]})

    # ---- order table read from the running code
    table, changed, unobserved, unknown, mo_path = regen_mo(results["L2"][2]["pairs"], mo_committed, os.path.join(vlib.BUILD, "gen", "mo_" + pid))
    V.extra["mo_table"] = table
    V.extra["mo_changed_vs_committed"] = {k: list(v) for k, v in changed.items()}
    V.extra["mo_sites_unobserved"] = unobserved
    V.extra["l2_conformant"] = V.drift == 0

    # ---- TLC on the L2 model with the code's orders
    lib = [os.path.dirname(mo_path)] if mo_path else []
    tag = json.dumps(table, sort_keys=True)
    mcs = [("sc_small", "BQ_small_sc.cfg"), ("wm", "BQ_wm.cfg")]
    if tier == "thorough":
        mcs += [("sc_batch", "BQ_batch_sc.cfg"), ("sc_3thr", "BQ_3thr_sc.cfg"), ("wm2", "BQ_wm2.cfg"), ("live", "BQ_live.cfg")]
    if not replay:
        for name, cfg in mcs:
            p = os.path.join(SPEC, "mc", cfg)
            if not os.path.exists(p):
                continue
            r = vlib.tlc(os.path.join(SPEC, "MC_BQ.tla"), p, cache=True, extra_hash=tag, lib_dirs=lib, timeout=3000, heap="24g")
            V.add_tlc(name, r)
            if not r.ok:
                if r.violation in ("tlc_error", "timeout"):
                    raise vlib.Broken("TLC failed on %s: %s" % (cfg, r.error_trace[:2000]))
                clause = r.violation
                if clause.lstrip("T") not in {c.lstrip("T") for c in mine}:
                    V.extra.setdefault("other_property_clauses_seen", []).append(clause)
                    continue
                if V.drift:
                    log("NOTE: TLC counterexample for %s ignored for the verdict because the L2 spec drifted from the code" % clause)
                    continue
                rp = vlib.save_replay(pid, "tlc_%s_%s.txt" % (name, clause), "order table (from the running code): %s\nchanged vs committed: %s\n\n%s" % (json.dumps(table), json.dumps(changed), r.error_trace))
                V.violation("%s violated in the L2 model %s with the memory orders the code executes (changed: %s)" % (clause, cfg, json.dumps(changed)), rp)
        V.cov["exhaustive"] = True
    V.assumptions += [
        "WeakMem.tla is a subset of ISO C++ (promise-free release/acquire + fences, stores at the end of mo); seq_cst accesses have hardware strength",
        "mixed-size access to the futex word is modelled at hardware level (narrow store + wide load may combine a stale half until a seq_cst fence/RMW)",
        "executions are serialised by vsched: one thread runs between two atomic operations; weak-memory outcomes are decided on the model, not on the host",
    ]
    return V.finish()
