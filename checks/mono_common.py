"""Trace normalisation and program generation for the monotonic-buffer-resource driver (C06).

C++ records, TLA+ decides: this module only reshapes the driver's ndjson events into the uniform
records Mono_Trace.tla (one line per operation) and Mono_Mon.tla (one line per event) read, and
produces operation sequences (seeded, biased to the boundaries of the code's case split)."""
import json
import os
import re

import vlib

PA, OA, DA, CAP = 128, 368, 248, 15


# ----------------------------------------------------------------------------- one-pass trace validation
class Issue:
    def __init__(self, exec_index, kind, clause, line):
        self.exec_index = exec_index   # index into the list of executions
        self.kind = kind               # "rejected" (no step of the L2 specification) | "invariant"
        self.clause = clause           # violated clause
        self.line = line               # 1-based line within the normalised execution


def validate(tla, cfg, execs_lines, name, timeout=1800):
    """Run Mono_Trace / Mono_Mon once over all executions.  Both specifications consume every line and report
    <<"VERIF", lines consumed, lines, {<<line, clause>>, ...}>>; the first verdict of an execution counts.
    Returns (accepted, issues, stats)."""
    d = os.path.join(vlib.BUILD, "traces")
    os.makedirs(d, exist_ok=True)
    path = os.path.join(d, "%s.%d.ndjson" % (name, os.getpid()))
    starts, n = [], 0
    with open(path, "w") as f:
        for ex in execs_lines:
            starts.append(n + 1)
            for e in ex:
                f.write(json.dumps(e, separators=(",", ":")) + "\n")
            n += len(ex)
    stats = {"states": 0, "wall": 0.0, "lines": n}
    if n == 0:
        return 0, [], stats
    r = vlib.validate_trace(tla, cfg, path, timeout=timeout)
    stats["states"], stats["wall"] = r.distinct, r.wall
    m = re.search(r'<<\s*"VERIF",\s*(\d+),\s*(\d+),\s*\{(.*?)\}\s*>>', r.out, re.S)
    if not m or not r.ok:
        raise vlib.Broken("trace validation %s failed: %s" % (name, (r.error_trace or r.out)[-3000:]))
    if int(m.group(1)) < int(m.group(2)) or int(m.group(2)) != n:
        raise vlib.Broken("trace validation %s consumed %s of %s lines (file has %d)" % (name, m.group(1), m.group(2), n))
    os.unlink(path)
    first = {}
    stats["env"] = []
    for line, clause in sorted((int(a), b) for a, b in re.findall(r'<<\s*(\d+),\s*"(\w+)"\s*>>', m.group(3))):
        j = max(i for i, st in enumerate(starts) if st <= line)
        if clause.startswith("Env"):       # environment assumption of the specification, reported next to the verdicts
            stats["env"].append((j, clause, line - starts[j] + 1))
            continue
        if j not in first:
            first[j] = Issue(j, "rejected" if clause == "drift" else "invariant", clause, line - starts[j] + 1)
    return len(execs_lines) - len(first), [first[j] for j in sorted(first)], stats

# ----------------------------------------------------------------------------- L1 monitor lines
DEFM = {"k": "", "t": 0, "op": "", "a": 0, "n": 0, "al": 0, "id": 0, "fn": 0, "r": 0, "u": "", "ok": True, "intact": True,
        "used": 0, "alloc": 0, "rng": [], "status": "", "P": 0, "am": 0}
SIZE = {"pa": PA, "oa": OA, "da": DA}


def monitor_lines(events):
    out = []
    pend = []
    view_open = False
    seq = True

    def flush():
        nonlocal pend, view_open
        if view_open or pend:
            out.append(dict(DEFM, k="view", rng=pend))
        pend = []
        view_open = False

    for e in events:
        k = e.get("k")
        if k in ("pa", "oa", "da"):
            pend.append({"a": e["at"], "n": SIZE[k]})
            continue
        flush()
        t = max(e.get("t", 0), 0)
        if k == "reset":
            seq = e["scn"] in ("seq", "real")
            out.append(dict(DEFM, k="reset", P=int(e["params"]["P"])))
        elif k == "palloc":
            out.append(dict(DEFM, k=k, t=t, a=e["pg"], am=e.get("pm", 0)))   # pm: real page pointer % page size
        elif k == "pfree":
            out.append(dict(DEFM, k=k, t=t, a=e["pg"], ok=e["ok"]))
        elif k in ("ualloc", "ufree"):
            out.append(dict(DEFM, k=k, t=t, u=e["u"], a=e["a"], n=e["n"], al=e["al"], ok=e.get("ok", True)))
        elif k == "dtor":
            out.append(dict(DEFM, k=k, t=t, id=e["id"], fn=e["fn"], intact=e["intact"]))
        elif k == "call":
            out.append(dict(DEFM, k=k, t=t, op=e["op"], r=e.get("r", 0)))
        elif k == "ret":
            op = e["op"]
            n = dict(DEFM, k=k, t=t, op=op, r=e.get("r", 0))
            if op == "alloc":
                n.update(a=e["a"], n=e["n"], al=e["al"], am=e.get("am", 0))   # am: real pointer % alignment
            elif op == "rd":
                n.update(id=e["id"], fn=e["fn"])
            elif op == "contains":
                n.update(a=e["p"], ok=e["res"])
            elif op in ("release", "destroy"):
                n.update(used=e["used"], alloc=e["alloc"])
            out.append(n)
            if seq and op != "destroy":
                view_open = True
        elif k == "chk":
            out.append(dict(DEFM, k=k, t=t, intact=e["intact"]))
        elif k == "end":
            out.append(dict(DEFM, k=k, status=e.get("status", "?")))
        # scheduling events, "view" markers, crash notes: nothing observable at the seams
    flush()
    return out


# ----------------------------------------------------------------------------- L2 trace lines (one per operation)
DEFT = {"k": "", "P": 0, "op": "", "n": 0, "al": 0, "id": 0, "fn": 0, "p": 0, "a": 0, "res": False,
        "pal": [], "pfr": [], "ual": [], "ufr": [], "dts": [], "intact": True,
        "fb": 0, "fe": 0, "used": 0, "alloc": 0, "up": "", "vpas": [], "voas": [], "vdas": [], "status": ""}


def trace_lines(events):
    out = []
    cur = None      # operation being assembled
    done = None     # last completed operation (still collecting its view / canary lines)
    batches = {}

    def fresh(op):
        return dict(DEFT, k="op", op=op, pal=[], pfr=[], ual=[], ufr=[], dts=[], vpas=[], voas=[], vdas=[])

    for e in events:
        k = e.get("k")
        if k == "reset":
            out.append(dict(DEFT, k="reset", P=int(e["params"]["P"])))
            done = None
        elif k == "call":
            cur = fresh(e["op"])
            batches = {}
            done = None
        elif k == "palloc" and cur is not None:
            cur["pal"].append(e["pg"])
        elif k == "pfree" and cur is not None:
            if e["bi"] not in batches:
                batches[e["bi"]] = []
                cur["pfr"].append(batches[e["bi"]])
            batches[e["bi"]].append(e["pg"])
        elif k == "ualloc" and cur is not None:
            cur["ual"].append({"a": e["a"], "n": e["n"], "al": e["al"], "u": e["u"]})
        elif k == "ufree" and cur is not None:
            cur["ufr"].append({"a": e["a"], "n": e["n"], "al": e["al"], "u": e["u"]})
        elif k == "dtor" and cur is not None:
            cur["dts"].append({"id": e["id"], "fn": e["fn"]})
            cur["intact"] = cur["intact"] and e["intact"]
        elif k == "ret" and cur is not None:
            op = e["op"]
            if op == "alloc":
                cur.update(n=e["n"], al=e["al"], a=e["a"])
            elif op == "rd":
                cur.update(id=e["id"], fn=e["fn"])
            elif op == "contains":
                cur.update(p=e["p"], res=e["res"])
            cur.update(fb=e["fb"], fe=e["fe"], used=e["used"], alloc=e["alloc"], up=e["up"])
            out.append(cur)
            done, cur = cur, None
        elif k == "pa" and done is not None:
            done["vpas"].insert(0, {"at": e["at"], "ents": list(reversed(e["ents"]))})
        elif k == "oa" and done is not None:
            done["voas"].insert(0, {"at": e["at"], "ents": [{"a": x[0], "n": x[1], "al": x[2]} for x in reversed(e["ents"])]})
        elif k == "da" and done is not None:
            done["vdas"].insert(0, {"at": e["at"], "ents": list(reversed(e["ents"]))})
        elif k == "chk":
            tgt = done if done is not None else (out[-1] if out and out[-1]["k"] == "op" else None)
            if tgt is not None:
                tgt["intact"] = tgt["intact"] and e["intact"]
        elif k == "end":
            out.append(dict(DEFT, k="end", status=e.get("status", "?")))
    return out


# ----------------------------------------------------------------------------- programs
def boundary_bytes(P):
    s = {0, 1, 7, 8, 9, 120, 121, 127, 128, 129, 136, DA, DA + 1, P - DA, P - 129, P - 128, P - 127, P - 121, P - 120, P - 8, P - 1, P, P + 1,
         P + 8, 2 * P - 1, 2 * P, 2 * P + 1, P // 2, P // 2 + 1}
    return sorted(x for x in s if x >= 0)


def boundary_aligns(P):
    return [1, 1, 8, 8, 8, 16, 64, 64, P // 2, P, 2 * P, 4 * P]


def gen_program(rng, P, length):
    """seeded operation sequence; 'x:D:AL' asks for (remaining space after aligning to AL) + D bytes, so the
    fits / does-not-fit decision and the three page array placements are hit at their exact boundaries"""
    ops = []
    bb = boundary_bytes(P)
    ba = boundary_aligns(P)
    style = rng.choice(["mixed", "mixed", "pages", "oversize", "dtors", "arrays"])
    i = 0
    while i < length:
        i += 1
        x = rng.random()
        if style == "arrays" and x < 0.25:
            # walk up to a 15-entry boundary, then play with the remaining space
            ops.append("am:%d:%d:%d" % (rng.choice([13, 14, 15]), rng.choice([P // 2 + 1, P - 127, P, P + 1]), rng.choice([1, 8])))
            ops.append("x:%d:%d" % (-rng.choice([120, 127, 128, 129, 135, 136, 137]), rng.choice([1, 8])))
            ops.append("a:%d:%d" % (max(0, rng.choice([P - 129, P - 128, P - 127, P - 120, P, 200 if P > 200 else P])), rng.choice([1, 8, 64])))
            continue
        if x < 0.40:
            b = rng.choice(bb) if rng.random() < 0.85 else rng.randint(0, 2 * P + 16)
            ops.append("%s:%d:%d" % (rng.choice("aaatv"), b, rng.choice(ba)))
        elif x < 0.55:
            ops.append("x:%d:%d" % (rng.choice([-129, -128, -127, -9, -8, -1, 0, 0, 1, 8]), rng.choice([1, 8, 64])))
        elif x < 0.63:
            if style in ("pages", "arrays", "mixed"):
                ops.append("am:%d:%d:%d" % (rng.choice([2, 5, 13, 14, 15, 16, 29, 31]), max(0, rng.choice([1, P // 2 + 1, P - 128, P - 127, P])), rng.choice([1, 8, 64])))
            else:
                ops.append("am:%d:%d:%d" % (rng.choice([2, 13, 14, 15, 16, 31]), rng.choice([P + 1, 2 * P, 1]), rng.choice([8, 2 * P])))
        elif x < 0.75:
            ops.append("d" if rng.random() < 0.6 or style != "dtors" else "dm:%d" % rng.choice([13, 14, 15, 16, 31]))
        elif x < 0.80:
            ops.append("dm:%d" % rng.choice([2, 14, 15, 16]))
        elif x < 0.88:
            ops.append(rng.choice(["cb:%d:0" % rng.randint(0, 40), "cb:%d:%d" % (rng.randint(0, 40), rng.choice([1, 7, 127])), "cf:0", "cf:-1", "ce:0", "ce:-1", "c:0", "c:-1", "ce:8"]))
        elif x < 0.94:
            ops.append("r")
        else:
            ops.append("ma")
    if rng.random() < 0.7:
        ops.append("r")
    return ".".join(ops)


FIXED = [
    # (P, program): the case split of allocate, one by one
    (256, "a:8:8.a:100:8.a:20:64.x:0:1.a:1:1.r"),                                  # fits / exact fit / new page
    (256, "a:129:8.a:1:1.a:255:1.r"),                                              # first page: array needs an extra page (C)
    (256, "a:128:8.a:1:1.r"),                                                      # array behind the block (B), page exactly full
    (256, "am:15:129:8.x:-128:8.a:200:8.a:8:8.r"),                                 # 16th page: array in the old page's tail (A), exact
    (256, "am:15:129:8.x:-127:8.a:200:8.a:8:8.r"),                                 # one byte short for (A) -> (C)
    (256, "am:15:129:8.x:-127:8.a:128:8.a:8:8.r"),                                 # one byte short for (A) -> (B) exact
    (256, "am:15:129:8.x:-133:1.a:123:1.a:8:8.r"),                                 # (A) after re-aligning an odd free_begin
    (512, "am:31:300:8.d.dm:16.a:384:64.a:385:8.r.a:8:8"),
    (256, "a:257:8.a:1:512.am:14:300:1.a:300:8.a:0:512.r"),                        # oversize: new array / room / 16th entry
    (128, "d.dm:15.a:8:8.a:129:8.r"),                                              # destroy task arrays go upstream when P < 248
    (256, "d.dm:14.d.dm:15.a:8:8.r.d.a:8:8"),                                      # LIFO over three destroy task arrays
    (256, "a:8:8.a:300:8.d.ma.a:8:8.a:300:8.d.cb:0:0.cb:1:299.cf:0.ce:0.c:-1.r"),  # move-assign keeps everything
    (4096, "a:3968:8.a:3969:8.a:4096:4096.a:1:8192.am:16:4000:64.r"),
    (256, "a:0:1.a:0:512.a:0:8.a:256:256.a:0:256.r.a:0:1"),
    (256, "a:8:8.a:1:1024.a:8:8.cf:0.cf:-1.r"),                                    # alignment pushes free_begin past free_end
]

# the resource on babylon's own allocator stack (scenario real): every alignment class, fresh pages for alignment == P
def real_programs(quick):
    out = []
    for P, stacks in ((4096, ["nd"]), (16384, ["nd", "cached"]), (65536, ["nd", "heap"])) if quick else \
            ((4096, ["nd", "cached", "heap"]), (8192, ["nd", "heap"]), (16384, ["nd", "cached", "heap"]), (65536, ["nd", "cached", "heap"])):
        prog = "a:8:8.a:100:64.a:1:4096.a:100:8192.a:1:%d.a:1:%d.d.a:%d:%d.am:3:100:%d.cb:0:0.r.a:8:8192.a:64:%d.am:2:%d:%d.r" % (P, 2 * P, P, P, P, P, P // 2 + 1, P // 2)
        out += [(P, prog, st) for st in stacks]
    return out


# move construction: the new object keeps new_delete_resource() as upstream (findings/C06_move_drops_upstream.md)
MVC_WITNESS = [(256, "a:300:8.mc.r"), (256, "a:8:8.mc.a:300:8.d.r")]


def gen_shared(rng, P):
    """<= 3 threads; threads are created (and joined, so that thread slots are recycled) while others allocate"""
    def body(n):
        ops = []
        for _ in range(n):
            x = rng.random()
            if x < 0.7:
                ops.append("a:%d:%d" % (rng.choice([0, 1, 8, 100, P - 128, P - 127, P, P + 1]), rng.choice([1, 8, 64, 2 * P])))
            else:
                ops.append("d")
        return ops
    shape = rng.choice(["chain", "fan", "recycle"])
    t1, t2, t3 = body(rng.randint(2, 5)), body(rng.randint(1, 4)), body(rng.randint(1, 4))
    if shape == "chain":
        t1.insert(rng.randint(0, len(t1)), "s2")
        t2.insert(rng.randint(0, len(t2)), "s3")
    elif shape == "fan":
        i = rng.randint(0, len(t1))
        t1.insert(i, "s2")
        t1.insert(rng.randint(i + 1, len(t1)), "s3")
    else:
        i = rng.randint(0, len(t1))
        t1.insert(i, "s2")
        j = rng.randint(i + 1, len(t1))
        t1.insert(j, "j2")
        t1.insert(rng.randint(j + 1, len(t1)), "s3")
    return "_".join(".".join(t) for t in (t1, t2, t3))


FIXED_SHARED = [
    (256, "a:8:8.s2.a:200:8.d.a:300:8.s3.a:1:1_a:8:8.d.a:129:8.a:257:1_d.a:8:8.a:1:512"),
    (256, "a:129:8.s2.j2.s3.a:8:8.d_a:100:8.d.a:300:8_a:100:8.d.a:300:8"),
    (128, "d.s2.a:8:8.s3.d_d.a:1:1.d_a:129:8.d"),
]


def parse_tlc_programs(out):
    """<<"PROG", P, <<"a:8:8", ...>>>> lines printed by MC_Mono in simulation mode"""
    progs = []
    for m in re.finditer(r'<<\s*"PROG",\s*(\d+),\s*<<(.*?)>>\s*>>', out, re.S):
        toks = re.findall(r'"([^"]+)"', m.group(2))
        if toks:
            progs.append((int(m.group(1)), ".".join(toks)))
    return progs
