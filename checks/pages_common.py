"""Trace normalisation for the page-allocator / object-pool driver (property C17)."""
import re

ATOMIC = {"load", "store", "xchg", "faa", "fand", "for", "fxor", "cas"}

# every line handed to Pages_Mon / Pool_Mon carries every field the monitors touch
DEF = {"k": "", "t": 0, "c": 0, "op": "", "n": 0, "pages": [], "obj": 0, "inject": False, "free": -1, "buf": -1, "count": -1,
       "held": 0, "seq": False, "status": "", "mode": 0, "cap": 0, "rec": False, "balanced": False}


def parse_prog(s):
    """'a2.d1_a1/d2' -> phases -> threads -> [(name, n or None)]"""
    phases = []
    for ph in s.split("/"):
        threads = []
        for th in ph.split("_"):
            ops = []
            for tok in th.split("."):
                if tok:
                    ops.append((tok[0], int(tok[1:]) if len(tok) > 1 else None))
            threads.append(ops)
        phases.append(threads)
    return phases


def pool_balanced(params):
    """strict pool: can the program never deadlock legitimately?  Every thread gives back what it holds when it
    ends, so the only legitimate deadlock is hold-and-wait: with m_t = the largest number of objects thread t may
    hold at once, inject >= 1 + sum(m_t - 1) guarantees that somebody can always finish."""
    if int(params.get("mode", 0)) != 0:
        return True  # auto-creating pool never blocks
    inject = int(params.get("inject", 1))
    for ph in parse_prog(params["prog"]):
        need = 1
        for th in ph:
            cur = mx = 0
            for name, _ in th:
                if name in ("p", "t"):
                    cur += 1
                    mx = max(mx, cur)
                elif name in ("r", "u") and cur > 0:
                    cur -= 1
            need += max(0, mx - 1)
        if any(any(n == "p" for n, _ in th) for th in ph) and inject < need:
            return False
    return True


def pages_lines(events):
    """vsched trace of one 'pages' execution -> lines for Pages_Mon.tla (L1 observables only)"""
    out = []
    for e in events:
        k = e.get("k")
        if k == "reset":
            out.append(dict(DEF, k="reset"))
        elif k == "up":
            out.append(dict(DEF, k="up", t=e["t"], op=e["op"], n=e["n"], pages=e["pages"]))
        elif k in ("call", "ret"):
            out.append(dict(DEF, k=k, t=e["t"], c=e["c"], op=e["op"], n=e["n"], pages=e.get("pages", [])))
        elif k == "quiesce":
            out.append(dict(DEF, k=k, free=e["free"], buf=e["buf"], count=e["count"], held=e["held"], seq=e["seq"]))
        elif k == "final":
            out.append(dict(DEF, k=k, pages=e["pages"]))
        elif k == "end":
            out.append(dict(DEF, k=k, status=e.get("status", "?")))
    return out


def pool_lines(events):
    """vsched trace of one 'pool' execution -> lines for Pool_Mon.tla"""
    out = []
    cur_c = {}
    for e in events:
        k = e.get("k")
        if k == "reset":
            p = e["params"]
            out.append(dict(DEF, k="reset", mode=int(p.get("mode", 0)), cap=int(p.get("cap", 2)), rec=int(p.get("rec", 1)) != 0, balanced=pool_balanced(p)))
        elif k in ("call", "ret"):
            cur_c[e["t"]] = e["c"]
            out.append(dict(DEF, k=k, t=e["t"], c=e["c"], op=e["op"], obj=e["obj"], inject=e["inject"]))
        elif k in ("recycle", "create", "dtor"):
            out.append(dict(DEF, k=k, t=e["t"], c=cur_c.get(e["t"], 0), obj=e["obj"]))
        elif k == "quiesce":
            out.append(dict(DEF, k=k, free=e["free"], seq=e["seq"]))
        elif k == "final":
            out.append(dict(DEF, k=k))
        elif k == "end":
            out.append(dict(DEF, k=k, status=e.get("status", "?")))
    return out


def hb_lines(events):
    """vsched trace of one execution -> lines for the generic HBMon.tla.  Payload accesses: the caller writes the
    pages / object it holds ('use'), upstream reuses a page it got back, the recycler / destructor write the object.
    Atomics at addresses the driver did not name (thread-id allocator, thread-local bookkeeping) take no part in
    handing a page or an object over; they are kept as relaxed accesses so that they cannot fake synchronisation."""
    out = []
    D = {"t": 0, "k": "", "loc": "", "i": 0, "mo": "", "mof": "", "ok": True}
    for e in events:
        k = e.get("k")
        t = max(0, e.get("t", 0))
        if k == "reset":
            out.append(dict(D, k="reset"))
        elif k in ATOMIC:
            loc = e.get("loc", "?")
            mo = e["mo"] if loc != "?" else "rlx"
            if k == "cas":
                out.append(dict(D, t=t, k=k, loc=loc, i=e.get("i", 0), mo=mo, mof=(e.get("mof", e["mo"]) if loc != "?" else "rlx"), ok=e["ok"]))
            else:
                out.append(dict(D, t=t, k=k, loc=loc, i=e.get("i", 0), mo=mo))
        elif k == "fence":
            out.append(dict(D, t=t, k=k, mo=e["mo"]))
        elif k in ("lock", "unlock"):
            out.append(dict(D, t=t, k=k, loc="mutex:" + e.get("loc", ""), i=e.get("i", 0)))
        elif k == "trylock":
            out.append(dict(D, t=t, k=k, loc="mutex:" + e.get("loc", ""), i=e.get("i", 0), ok=e["ok"]))
        elif k in ("spawn", "join"):
            out.append(dict(D, t=t, k=k, i=e["child"]))
        elif k == "use" and "pages" in e:
            for p in e["pages"]:
                if p > 0:
                    out.append(dict(D, t=t, k="acc", loc="page", i=p, ok=True))
        elif k == "up" and e.get("op") == "dealloc":
            for p in e["pages"]:
                if p > 0:
                    out.append(dict(D, t=t, k="acc", loc="page", i=p, ok=True))
        elif k in ("use", "recycle", "dtor") and "obj" in e:
            out.append(dict(D, t=t, k="acc", loc="obj", i=e["obj"], ok=True))
    return out


def max_thread(events):
    return max([e.get("t", 0) for e in events] + [e.get("child", 0) for e in events if e.get("k") == "spawn"] + [0])


# ------------------------------------------------------------------------------------------------ L2 trace validation
L2DEF = {"k": "", "t": 0, "loc": "", "i": 0, "v": 0, "a": 0, "ok": True, "op": "", "n": 0, "pages": [], "what": "", "ph": "",
         "free": -1, "count": -1, "cap": 0, "counting": False, "np": 0, "prog": []}


def l2_eligible(ex):
    """Pages_Trace covers the cached allocator (optionally under the counting allocator), single-phase programs
    made of a / d operations (the model's deallocate gives back the oldest pages)"""
    p = ex[0].get("params", {})
    if ex[0].get("scn") != "pages" or p.get("stack") not in ("c", "kc"):
        return False
    prog = str(p.get("prog", ""))
    return "/" not in prog and "e" not in prog and ex[-1].get("status") == "ok"


def l2_lines(events):
    """vsched trace of one 'pages' execution on stack c / kc -> lines for Pages_Trace.tla"""
    out = []
    npages = 0
    for e in events:
        k = e.get("k")
        t = e.get("t", 0)
        if k == "reset":
            p = e["params"]
            prog = [[{"op": name, "n": (n if n is not None else 1)} for name, n in th] for th in parse_prog(p["prog"])[0]]
            out.append(dict(L2DEF, k="reset", cap=int(p["cap"]), counting=p["stack"].startswith("k"), prog=prog))
        elif k in ATOMIC:
            if t <= 0 or e.get("loc") == "?":
                continue
            n = dict(L2DEF, k=k, t=t, loc=e["loc"], i=e.get("i", 0), v=e["v"])
            if k == "faa":
                n["a"] = e["a"]
            elif k == "cas":
                n["a"], n["ok"] = e["a"], e["ok"]
            out.append(n)
        elif k == "yield" and t > 0:
            out.append(dict(L2DEF, k=k, t=t))
        elif k == "up":
            npages += len(e["pages"]) if e["op"] == "alloc" else 0
            out.append(dict(L2DEF, k=k, t=max(t, 0), op=e["op"], n=e["n"], pages=e["pages"]))
        elif k in ("call", "ret"):
            out.append(dict(L2DEF, k=k, t=t, op=e["op"], n=e["n"], pages=e.get("pages", [])))
        elif k == "quiesce":
            out.append(dict(L2DEF, k=k, free=e["free"], count=e["count"]))
        elif k == "destroy":
            out.append(dict(L2DEF, k=k, what=e["what"], ph=e["ph"]))
        elif k == "final":
            out.append(dict(L2DEF, k=k, pages=e["pages"]))
        elif k == "end":
            out.append(dict(L2DEF, k=k))
    out[0]["np"] = npages + 1
    return out
